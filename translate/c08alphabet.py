# Translator for property C08: the invertible alphabet, the NFC composition oracle and the class representatives
#   -> lean/Pylx/Gen/C08Alphabet.lean
#
# Inputs: the built-in `defaults` table of the encoder (as the encoder uses it), the COMMITTED exception list
# c08_noninvertible.json (fixed data of the verification: this translator never runs a round trip and never edits the
# list), the accent table of latex2text/_defaultspecs.py and the default walker database (argument counts, for the
# replacement shapes of PylxProofs/C13ParseDefs.lean).
#
# The alphabet (code points):
#   * every key of the `defaults` table that is not in the exception list               (built-in characters), plus
#   * printable ASCII U+0020..U+007E without a table entry, except ' - ` (ligature forming: '' -- --- `` !` ?`), i.e.
#     space, digits, letters and  ! ( ) * + , . / : ; = ? @ [ ] |                        (ASCII), plus
#   * U+000A (newline; strings are additionally required to be free of paragraph breaks other than exactly "\n\n",
#     predicate `ParClean` of PylxProofs/C08Defs.lean).
#   The ASCII characters with a table entry ( # $ % & < > \ _ { } ~ ) are in the first group; " and ^ are in the exception list.
import sys, os, json, unicodedata

LIGATURE_ASCII = "'-`"

def chunks(l, n=40):
    return [l[i:i+n] for i in range(0, len(l), n)] or [[]]

def load_exceptions():
    here = os.path.dirname(os.path.abspath(__file__))
    p = os.path.join(os.path.dirname(here), 'c08_noninvertible.json')
    d = json.load(open(p))
    cps = [e['cp'] for e in d['entries']]
    if len(set(cps)) != len(cps):
        raise ValueError('c08alphabet translator: duplicate code points in c08_noninvertible.json')
    lig = d['ascii_excluded']['ligature_forming']
    if sorted(lig) != sorted(ord(c) for c in LIGATURE_ASCII):
        raise ValueError('c08alphabet translator: ligature-forming ASCII characters of c08_noninvertible.json differ from the documented three')
    return set(cps)

# ---------------------------------------------------------------- replacement shapes (mirror of Pylx.C13.items / shapeOf)

def items(t, i=0):
    """items up to the end of the text or an unmatched '}' -> (list, index)"""
    out = []
    n = len(t)
    while i < n:
        c = t[i]
        if c == '}':
            return out, i
        if c == '{':
            body, j = items(t, i + 1)
            if j >= n or t[j] != '}':
                raise ValueError('unbalanced')
            out.append(('grp', body)); i = j + 1
        elif c == '\\':
            if i + 1 >= n:
                raise ValueError('lone backslash')
            d = t[i + 1]
            if d.isascii() and d.isalpha():
                j = i + 1
                while j < n and t[j].isascii() and t[j].isalpha():
                    j += 1
                out.append(('word', t[i+1:j])); i = j
            else:
                out.append(('esc', d)); i += 2
        else:
            out.append(('chr', c)); i += 1
    return out, i

def items_of(t):
    try:
        l, i = items(t)
    except ValueError:
        return None
    return l if i == len(t) else None

def make_mand_count(repo):
    here = os.path.dirname(os.path.abspath(__file__))
    sys.path.insert(0, os.path.join(os.path.dirname(here), 'harness'))
    import ctxdesc
    ctx = ctxdesc.introspect_db(ctxdesc.make_db('default'))
    d = {}
    for n, a in ctx['macros']:
        d.setdefault(n, a)
    um = ctx['um']
    def mand(name):
        a = d.get(name, um)
        if a is None or a[0] != 'S':
            return 0
        return sum(1 for sp in a[1] if sp[0] == 'm')
    return mand

def shape_of(l, mand):
    needs = lambda it: mand(it[1]) if it[0] in ('esc', 'word') else 0
    is_macro = lambda it: it[0] in ('esc', 'word')
    if not l:
        return 'empty'
    if len(l) == 1:
        it = l[0]
        if is_macro(it) and needs(it) > 0:
            return 'bareAccent'
        return {'chr': 'plain', 'esc': 'escape', 'word': 'word', 'grp': 'group'}[it[0]]
    a, rest = l[0], l[1:]
    if all(it[0] == 'chr' for it in l):
        return 'plain'
    if a[0] == 'word' and len(rest) == 1 and rest[0][0] == 'grp':
        b = rest[0][1]
        if a[1] == 'ensuremath': return 'ensuremath'
        if not b: return 'macroEmpty'
        if len(b) == 1 and mand(a[1]) > 0 and len(a[1]) == 1: return 'accentBraced'
        return 'macroGroups'
    if a[0] == 'esc' and len(rest) == 1 and rest[0][0] == 'grp':
        b = rest[0][1]
        return 'macroEmpty' if not b else ('accentBraced' if len(b) == 1 else 'macroGroups')
    if a[0] == 'esc' and len(rest) == 1 and rest[0][0] in ('chr', 'word'):
        return 'accentBare'
    if is_macro(a) and all(it[0] == 'grp' for it in rest):
        return 'macroGroups'
    if all(is_macro(it) for it in l):
        return 'macroSeq'
    return 'other'

def ascii_class(cp):
    c = chr(cp)
    if c == '\n': return 'newline'
    if c == ' ': return 'space'
    if c.isdigit(): return 'digit'
    if c.isalpha(): return 'letter'
    return 'punct'

# ---------------------------------------------------------------- data

def read_all(repo):
    if repo not in sys.path:
        sys.path.insert(0, repo)
    import uni2latex as u2l
    prot, table_items = u2l.read_table('defaults')
    table = dict(table_items)
    exc = load_exceptions()
    builtin = sorted(k for k in table if k not in exc)
    ascii_ = [k for k in range(32, 127) if k not in table and chr(k) not in LIGATURE_ASCII] + [10]
    alphabet = sorted(set(builtin) | set(ascii_))
    mand = make_mand_count(repo)
    classes = {}
    for k in alphabet:
        if k in table:
            l = items_of(table[k])
            cl = 'shape:' + (shape_of(l, mand) if l is not None else 'unparsed')
        else:
            cl = 'ascii:' + ascii_class(k)
        classes.setdefault(cl, []).append(k)
    return table, exc, alphabet, classes

ASCII_REPS = {'ascii:letter': 'Az', 'ascii:digit': '09', 'ascii:space': ' ', 'ascii:newline': '\n', 'ascii:punct': '!?[*'}

ACTIVE_ASCII = '#$%{}~\\<'

def signature(l, depth=0):
    """structure of an item list: kinds only (names and characters abstracted), nested two levels"""
    out = []
    for it in l:
        if it[0] == 'grp':
            out.append(('grp', signature(it[1], depth + 1) if depth < 2 else ()))
        else:
            out.append(it[0])
    return tuple(out)

def pick_reps(table, classes):
    """a few representatives per class.  Shape classes: one member per distinct item structure (kinds of the items, nested), in code
    point order, at most 4 (so `\\ensuremath{<}`, `\\ensuremath{\\pm}`, `\\ensuremath{\\mathbb{C}}` … are all present), plus the last
    member.  ASCII classes: fixed characters (first halves of the ligatures !` ?`, the optional-argument and star characters [ *)."""
    reps = {}
    for cl, ks in sorted(classes.items()):
        if cl in ASCII_REPS:
            chosen = [ord(c) for c in ASCII_REPS[cl] if ord(c) in ks]
            if not chosen:
                chosen = ks[:1]
        else:
            chosen, seen = [], set()
            for k in ks:
                sg = signature(items_of(table[k]) or [])
                if sg not in seen:
                    seen.add(sg); chosen.append(k)
                if len(chosen) >= 4:
                    break
            if ks[-1] not in chosen and len(chosen) < 3:
                chosen.append(ks[-1])
        reps[cl] = chosen
    # every LaTeX-active ASCII character that has a rule and is in the alphabet is a representative of its class
    for c in ACTIVE_ASCII:
        for cl, ks in classes.items():
            if ord(c) in ks and ord(c) not in reps[cl]:
                reps[cl].append(ord(c))
    return reps

def nfc_table(repo):
    """(base, combining) -> NFC(base + combining) for the combining characters of the accent macros of latex2text,
    wherever NFC changes the two-character string (unicodedata is the trusted library oracle of Pylx.L2T.Lib.nfc2)"""
    from pylatexenc.latex2text import _defaultspecs
    combs = sorted(set(ord(c) for _, c in _defaultspecs.unicode_accents_list))
    out = []
    for b in range(0x20, 0x3100):
        cb = chr(b)
        if unicodedata.combining(cb) or unicodedata.category(cb) in ('Cn', 'Cs', 'Co'):
            continue
        for m in combs:
            s = cb + chr(m)
            r = unicodedata.normalize('NFC', s)
            if r != s:
                out.append((b, m, [ord(x) for x in r]))
    return out

def generate(repo):
    table, exc, alphabet, classes = read_all(repo)
    reps = pick_reps(table, classes)
    nfc = nfc_table(repo)
    out = ['/- GENERATED by translate/c08alphabet.py from the `defaults` table (pylatexenc/latexencode/_uni2latexmap.py), the committed',
           '   exception list c08_noninvertible.json, latex2text/_defaultspecs.py (accents) and unicodedata (NFC) — do not edit',
           '   alphabet: %d code points = %d built-in characters (table %d − exception list %d present in the table) + %d ASCII without rule'
           % (len(alphabet), sum(1 for k in alphabet if k in table), len(table), sum(1 for k in exc if k in table),
              sum(1 for k in alphabet if k not in table)),
           '   classes: ' + ', '.join('%s=%d' % (c, len(ks)) for c, ks in sorted(classes.items())),
           '-/', 'import Pylx.Basic', 'namespace Pylx.Gen', '']
    cs = chunks(alphabet, 5)
    for i, c in enumerate(cs):
        out.append('def c08Alpha%d : List Nat := [%s]' % (i, ', '.join(map(str, c))))
    out.append('')
    out.append('/-- the invertible alphabet of property C08 (code points, sorted), in chunks of 5 -/')
    out.append('def c08AlphaChunks : List (List Nat) := [%s]\n' % ', '.join('c08Alpha%d' % i for i in range(len(cs))))
    out.append('def c08Alphabet : List Nat := c08AlphaChunks.flatten\n')
    out.append('def c08AlphabetSize : Nat := %d\n' % len(alphabet))
    out.append('/-- class representatives (class = replacement shape of the table entry, or kind of ASCII character), one chunk per class -/')
    names = []
    for i, (cl, ks) in enumerate(sorted(reps.items())):
        out.append('def c08Reps%d : List Nat := [%s]   -- %s' % (i, ', '.join(map(str, ks)), cl))
        names.append('c08Reps%d' % i)
    out.append('')
    out.append('def c08RepChunks : List (List Nat) := [%s]\n' % ', '.join(names))
    out.append('def c08Reps : List Nat := c08RepChunks.flatten\n')
    ncs = chunks(['(%d, %d, [%s])' % (b, m, ', '.join(map(str, r))) for b, m, r in nfc])
    for i, c in enumerate(ncs):
        out.append('def c08Nfc%d : List (Nat × Nat × List Nat) := [\n  %s]\n' % (i, ',\n  '.join(c)))
    out.append('/-- `unicodedata.normalize("NFC", base + combining)` wherever it differs from the two characters (accent oracle) -/')
    out.append('def c08Nfc : List (Nat × Nat × List Nat) := [%s].flatten\n' % ', '.join('c08Nfc%d' % i for i in range(len(ncs))))
    out += ['end Pylx.Gen', '']
    return {'C08Alphabet.lean': '\n'.join(out)}

if __name__ == '__main__':
    t = generate(sys.argv[1] if len(sys.argv) > 1 else '/repo')['C08Alphabet.lean']
    print(t[:3000])
