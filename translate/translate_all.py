# Data translators: regenerate Lean tables under lean/Pylx/Gen from /repo's working tree.
import os, sys, importlib

def write_if_changed(path, content):
    old = None
    if os.path.exists(path):
        old = open(path).read()
    if old != content:
        os.makedirs(os.path.dirname(path), exist_ok=True)
        with open(path, 'w') as f:
            f.write(content)
        return True
    return False

TRANSLATORS = ['walkerdb', 'uni2latex', 'textdb', 'stateinventory', 'c08alphabet']

def main(repo, outdir):
    res = {}
    here = os.path.dirname(os.path.abspath(__file__))
    if here not in sys.path:
        sys.path.insert(0, here)
    for name in TRANSLATORS:
        m = importlib.import_module(name)
        for fname, content in m.generate(repo).items():
            res[fname] = 'changed' if write_if_changed(os.path.join(outdir, fname), content) else 'same'
    return res

if __name__ == '__main__':
    repo = sys.argv[1] if len(sys.argv) > 1 else '/repo'
    out = sys.argv[2] if len(sys.argv) > 2 else os.path.join(os.path.dirname(here), 'lean', 'Pylx', 'Gen')
    print(main(repo, out))
