# Translator: inventory of hidden mutable state in the anchored parser modules
#   -> lean/Pylx/Gen/StateInventory.lean     (consumer: Pylx.World / PylxProofs.C09)
#
# An `ast` scan (the modules are not imported) of /repo's working tree for
#   (1) module-level mutable containers (dict / list / set displays or constructor calls bound at module
#       level) that are written to at run time: subscript stores, `del`, augmented assignments, mutating
#       method calls (`append`, `update`, `setdefault`, `pop`, `clear`, ...), or `global` rebinding;
#   (2) stores to attributes of `self` -- `self.a = ..`, `self.a op= ..`, `self.a[..] = ..`, `del self.a[..]`,
#       `self.a.<mutating method>(..)`, `setattr(self, ..)`, `self.__dict__...` -- in methods other than
#       the constructor (`__init__`, `__new__`), classified by the kind of object the class is:
#         shared    = the object outlives one parse: parser instances (reachable from specs or from the
#                     module cache), spec objects, the context database, ParsingState instances,
#                     ParsingStateDelta instances (held by specs);
#         perparse  = created inside one `parse_content` call tree and dropped with it: token reader,
#                     nodes collector, the parsers' `...Info` records, the walker's `_ParsingContext`;
#         walker    = the LatexWalker object (one per input string; C09 parses every input with its own walker);
#       a class that is not in the table below is *shared* (fail closed);
#   (3) the same kinds of stores to attributes of a *parameter or local* that names a long-lived object
#       (`latex_walker.x = ..`, `parsing_state.x = ..`, `token_reader.x = ..` are classified by the table
#       PARAM_KIND; unknown names holding non-local objects are reported as shared stores of class `?name`).
#
# Only the *shared* stores and the written module-level containers are what `Pylx.World` has to account
# for; `PylxProofs.C09.C09_inventory_accounted` checks  inventory ⊆ allow-list  by kernel evaluation, so a
# new store in the source breaks that theorem by construction.
import ast, os, sys

MODULES = None   # filled by module_list()

def module_list(repo):
    pk = os.path.join(repo, 'pylatexenc')
    mods = []
    pdir = os.path.join(pk, 'latexnodes', 'parsers')
    for f in sorted(os.listdir(pdir)):
        if f.endswith('.py'):
            mods.append('latexnodes/parsers/' + f)
    mods += ['latexnodes/_nodescollector.py', 'latexnodes/_tokenreader.py', 'latexnodes/_tokenreaderbase.py',
             'latexnodes/_parsingstate.py', 'latexnodes/_parsingstatedelta.py', 'latexnodes/_walkerbase.py',
             'latexnodes/_callablespecbase.py', 'latexnodes/_latexcontextdbbase.py', 'latexnodes/_parsedargs.py',
             'macrospec/_specclasses.py', 'macrospec/_argumentsparser.py', 'macrospec/_macrocallparser.py',
             'macrospec/_environmentbodyparser.py', 'macrospec/_latexcontextdb.py',
             'macrospec/_pyltxenc2_argparsers/_base.py', 'macrospec/_pyltxenc2_argparsers/_verbatimargsparser.py',
             'latexwalker/_walker.py', 'latexwalker/_get_defaultspecs.py']
    return [m for m in mods if os.path.exists(os.path.join(pk, m))]

# ---------------------------------------------------------------- classification table (explicit; unknown => shared)

PERPARSE = 'perparse'
SHARED = 'shared'
WALKER = 'walker'
VALUE = 'value'

CLASS_KIND = {
    # --- created inside one parse_content call tree
    'LatexTokenReader': PERPARSE, 'LatexTokenReaderBase': PERPARSE, 'LatexTokenListTokenReader': PERPARSE,
    'LatexNodesCollector': PERPARSE, 'LatexNodesCollector.ParsingStateDeltasProvider': PERPARSE,
    'LatexDelimitedExpressionParserInfo': PERPARSE, 'LatexDelimitedGroupParserInfo': PERPARSE,
    'LatexDelimitedExpressionParserOpeningDelimiterNotFound': PERPARSE,
    'LatexDelimitedMultiDelimGroupParser.MultiDelimInfo': PERPARSE, 'LatexDelimitedMultiDelimGroupParserInfo': PERPARSE,
    'LatexMathParser.MathParserInfo': PERPARSE, 'LatexMathParserInfo': PERPARSE,
    'LatexVerbatimBaseParser.VerbatimInfo': PERPARSE,
    'LatexCharsGroupParser.CharsContentsParserInfo': PERPARSE,
    'LatexCharsCommaSeparatedListParser.CommaSepParserInfo': PERPARSE,
    '_CommaSepContentCustomParser': PERPARSE,
    'LatexEnvironmentBodyContentsParserInfo': PERPARSE,
    '_ParsingContext': PERPARSE, 'LatexWalker._ParsingContext': PERPARSE,
    '_TryAgainWithSkippedCommentNodes': PERPARSE,
    '_PushPropOverride': PERPARSE,
    # --- results / values built during a parse and handed to the caller
    'ParsedArguments': VALUE, 'ParsedMacroArgs': VALUE, 'LatexArgumentSpec': SHARED,
    'ParsedVerbatimArgs': VALUE, 'ParsedLstListingArgs': VALUE,
    # --- the walker: one per input
    'LatexWalker': WALKER, 'LatexWalkerBase': WALKER, 'LatexWalkerParsingStateEventHandler': SHARED,
    '_DefaultParsingStateEventHandler': SHARED,
}
# every other class (all parsers `Latex...Parser`, `MacroSpec`/`EnvironmentSpec`/`SpecialsSpec`/`CallableSpec`...,
# `LatexContextDb`, `ParsingState`, `ParsingStateDelta...`, legacy `MacroStandardArgsParser`, `VerbatimArgsParser`)
# is SHARED.

# names of parameters / locals that hold long-lived objects, for stores of the form `<name>.<attr> = ...`
PARAM_KIND = {
    'latex_walker': WALKER, 'w': WALKER, 'walker': WALKER,
    'token_reader': PERPARSE, 'tr': PERPARSE, 'collector': PERPARSE, 'verbatim_info': PERPARSE,
    'contents_parser_info': PERPARSE, 'parser_info': PERPARSE, 'pc': PERPARSE, 'exc': PERPARSE, 'e': PERPARSE,
    'parsing_state': SHARED, 'ps': SHARED, 'latex_context': SHARED, 'spec': SHARED, 'db': SHARED,
    'arg_parser': SHARED, 'arg_node_parser': SHARED, 'parser': SHARED, 'new_context': 'fresh',
    # result objects created by the very call that stores into them and handed to the caller
    'thenodelist': VALUE, 'collected_nodelist': VALUE, 'nodeargd': VALUE, 'nodes': VALUE,
    # the exception in flight / the token just produced by this parse's token reader
    'stop_exc': PERPARSE, 'tok': PERPARSE,
}

# module-level functions that are only ever called from a constructor (they finish building the object
# passed to them): stores through their parameters are construction, like stores in `__init__`
CTOR_HELPER_FUNCS = {
    '_legacy_pyltxenc2_CallableSpec_init_from_args_parser',     # called from CallableSpec.__init__ only
}

MUTATORS = {'append', 'extend', 'insert', 'pop', 'remove', 'clear', 'update', 'setdefault', 'popitem', 'add',
            'discard', 'sort', 'reverse', 'appendleft', '__setitem__', '__delitem__', '__setattr__'}
CTORS = {'__init__', '__new__'}
CONTAINER_CALLS = {'dict', 'list', 'set', 'OrderedDict', 'defaultdict', 'ChainMap', 'deque'}

def is_container_expr(v):
    if isinstance(v, (ast.Dict, ast.List, ast.Set, ast.DictComp, ast.ListComp, ast.SetComp)):
        return True
    if isinstance(v, ast.Call):
        f = v.func
        name = f.id if isinstance(f, ast.Name) else (f.attr if isinstance(f, ast.Attribute) else None)
        return name in CONTAINER_CALLS
    return False

def base_name_attr(node):
    """for an expression `<name>.<attr>(...)*`, `<name>.<attr>[..]`: (name, attr) of the innermost attribute on a Name"""
    n = node
    while True:
        if isinstance(n, ast.Subscript):
            n = n.value
        elif isinstance(n, ast.Attribute):
            if isinstance(n.value, ast.Name):
                return n.value.id, n.attr
            v = n.value
            if isinstance(v, ast.Call) and isinstance(v.func, ast.Name) and v.func.id == 'type' and len(v.args) == 1 \
               and isinstance(v.args[0], ast.Name):
                return v.args[0].id, n.attr          # type(self).attr: class-level state
            n = n.value
        elif isinstance(n, ast.Call):
            n = n.func
        else:
            return None

def base_name(node):
    n = node
    while isinstance(n, (ast.Subscript, ast.Attribute)):
        n = n.value
    return n.id if isinstance(n, ast.Name) else None

class Scan(ast.NodeVisitor):
    def __init__(self, modname):
        self.mod = modname
        self.cls = []           # class name stack
        self.fn = []            # function name stack
        self.module_containers = {}   # name -> lineno
        self.module_writes = set()    # names written at run time
        self.self_stores = []   # (class, attr, method, how)
        self.param_stores = []  # (name, attr, function, how)
        self.method_calls = []  # (attribute name called, receiver is `self`, enclosing class, enclosing method)
        self.cached_functions = []   # functions with a caching decorator
        self.mutable_defaults = []   # stack: set of parameter names with a mutable default value
        self.aliases = [{}]          # stack: local name -> (owner name, attribute) | ('<module>', container) it was bound from

    # -------- helpers
    def clsname(self):
        return '.'.join(self.cls) if self.cls else None

    def in_function(self):
        return bool(self.fn)

    def note_target(self, t, how):
        """a store / delete / aug-assign target"""
        if isinstance(t, (ast.Tuple, ast.List)):
            for e in t.elts:
                self.note_target(e, how)
            return
        if isinstance(t, ast.Starred):
            return self.note_target(t.value, how)
        if isinstance(t, ast.Name):
            return
        ba = base_name_attr(t)
        bn = base_name(t)
        if bn is not None and not ba and self.in_function() and isinstance(t, (ast.Subscript, ast.Attribute)) \
           and bn in self.aliases[-1]:
            self.note_alias_write(bn, how)
            return
        if bn is not None and self.mutable_defaults and bn in self.mutable_defaults[-1] and isinstance(t, ast.Subscript) and not ba:
            self.module_writes.add(self.qualfn() + '(' + bn + '=<mutable default>)')
            self.module_containers.setdefault(self.qualfn() + '(' + bn + '=<mutable default>)', 0)
            return
        if bn is not None and self.in_function() and bn in self.module_containers and isinstance(t, ast.Subscript) and not ba:
            self.module_writes.add(bn)
            return
        if bn is not None and self.in_function() and bn in self.module_containers and isinstance(t, ast.Subscript):
            # <container>[k].attr = ... : a store into an element; count as a write to the container
            self.module_writes.add(bn)
        if ba is None:
            return
        name, attr = ba
        if not self.in_function():
            return
        if name == 'self':
            self.self_stores.append((self.clsname() or '?', attr, self.fn[-1], how))
        elif name == 'cls':
            self.self_stores.append((self.clsname() or '?', attr, self.fn[-1], how + '/cls'))
        elif name in self.aliases[-1]:
            self.note_alias_write(name, how)
        else:
            self.param_stores.append((name, attr, self.qualfn(), how))

    def qualfn(self):
        return ((self.clsname() + '.') if self.cls else '') + '.'.join(self.fn)

    # -------- visitors
    def visit_Module(self, node):
        for st in node.body:
            if isinstance(st, ast.Assign) and is_container_expr(st.value):
                for t in st.targets:
                    if isinstance(t, ast.Name):
                        self.module_containers[t.id] = st.lineno
            if isinstance(st, ast.AnnAssign) and st.value is not None and is_container_expr(st.value) and isinstance(st.target, ast.Name):
                self.module_containers[st.target.id] = st.lineno
        self.generic_visit(node)

    def visit_ClassDef(self, node):
        # a class nested in a function is local to that call; keep the name chain for nested classes
        saved_fn = self.fn
        self.fn = []
        self.cls.append(node.name)
        self.generic_visit(node)
        self.cls.pop()
        self.fn = saved_fn

    def visit_FunctionDef(self, node):
        for d in node.decorator_list:
            dn = d
            if isinstance(dn, ast.Call):
                dn = dn.func
            name = dn.id if isinstance(dn, ast.Name) else (dn.attr if isinstance(dn, ast.Attribute) else '')
            if 'cache' in name.lower() or 'memo' in name.lower():
                self.cached_functions.append(self.qualfn_of(node.name))
        md = set()
        a = node.args
        pos = a.posonlyargs + a.args
        for arg, dv in zip(pos[len(pos) - len(a.defaults):], a.defaults):
            if is_container_expr(dv):
                md.add(arg.arg)
        for arg, dv in zip(a.kwonlyargs, a.kw_defaults):
            if dv is not None and is_container_expr(dv):
                md.add(arg.arg)
        self.mutable_defaults.append(md)
        self.aliases.append({})
        self.fn.append(node.name)
        self.generic_visit(node)
        self.fn.pop()
        self.mutable_defaults.pop()
        self.aliases.pop()

    def qualfn_of(self, name):
        return ((self.clsname() + '.') if self.cls else '') + '.'.join(self.fn + [name])
    visit_AsyncFunctionDef = visit_FunctionDef
    visit_Lambda = ast.NodeVisitor.generic_visit

    def visit_Global(self, node):
        for n in node.names:
            # `global X` followed by rebinding: X is run-time state whatever its type
            self.module_containers.setdefault(n, node.lineno)
            self.module_writes.add(n)

    def visit_Assign(self, node):
        for t in node.targets:
            self.note_target(t, 'assign')
        # `x = self.a[..]...` / `x = CONTAINER[..]`: x is an alias of (part of) that object for the rest of the function
        if self.in_function() and len(node.targets) == 1 and isinstance(node.targets[0], ast.Name):
            v = node.value
            src = None
            if isinstance(v, (ast.Attribute, ast.Subscript)):
                ba = base_name_attr(v)
                bn = base_name(v)
                if ba is not None:
                    src = ba
                elif bn in self.module_containers:
                    src = ('<module>', bn)
            elif isinstance(v, ast.Name) and v.id in self.module_containers:
                src = ('<module>', v.id)
            elif isinstance(v, ast.Name) and v.id in self.aliases[-1]:
                src = self.aliases[-1][v.id]
            if src is not None:
                self.aliases[-1][node.targets[0].id] = src
            else:
                self.aliases[-1].pop(node.targets[0].id, None)
        self.generic_visit(node)

    def note_alias_write(self, name, how):
        src = self.aliases[-1].get(name)
        if src is None:
            return False
        owner, attr = src
        if owner == '<module>':
            self.module_writes.add(attr)
        elif owner == 'self':
            self.self_stores.append((self.clsname() or '?', attr, self.fn[-1], how + '/alias'))
        elif owner == 'cls':
            self.self_stores.append((self.clsname() or '?', attr, self.fn[-1], how + '/alias/cls'))
        else:
            self.param_stores.append((owner, attr, self.qualfn(), how + '/alias'))
        return True

    def visit_AnnAssign(self, node):
        if node.value is not None:
            self.note_target(node.target, 'assign')
        self.generic_visit(node)

    def visit_AugAssign(self, node):
        self.note_target(node.target, 'augassign')
        if isinstance(node.target, ast.Name) and self.in_function() and node.target.id in self.module_containers:
            self.module_writes.add(node.target.id)
        self.generic_visit(node)

    def visit_Delete(self, node):
        for t in node.targets:
            self.note_target(t, 'del')
        self.generic_visit(node)

    def visit_NamedExpr(self, node):
        self.generic_visit(node)

    def visit_For(self, node):
        self.note_target(node.target, 'for-target')
        self.generic_visit(node)

    def visit_With(self, node):
        for it in node.items:
            if it.optional_vars is not None:
                self.note_target(it.optional_vars, 'with-target')
        self.generic_visit(node)

    def visit_Call(self, node):
        f = node.func
        if isinstance(f, ast.Attribute):
            self.method_calls.append((f.attr, isinstance(f.value, ast.Name) and f.value.id == 'self',
                                      self.clsname(), self.fn[-1] if self.fn else None))
        if self.in_function():
            if isinstance(f, ast.Attribute) and f.attr in MUTATORS:
                recv = f.value
                bn = base_name(recv)
                ba = base_name_attr(recv)
                if isinstance(recv, ast.Name) and recv.id in self.aliases[-1]:
                    self.note_alias_write(recv.id, 'call:' + f.attr)
                elif bn is not None and ba is None and bn in self.aliases[-1]:
                    self.note_alias_write(bn, 'call:' + f.attr)
                if f.attr in ('__setattr__', '__delattr__') and node.args and isinstance(node.args[0], ast.Name) \
                   and isinstance(recv, (ast.Name, ast.Call)):
                    nm = node.args[0].id
                    attr = node.args[1].value if len(node.args) > 1 and isinstance(node.args[1], ast.Constant) else '<dynamic>'
                    if nm == 'self':
                        self.self_stores.append((self.clsname() or '?', str(attr), self.fn[-1], f.attr))
                    else:
                        self.param_stores.append((nm, str(attr), self.qualfn(), f.attr))
                if isinstance(recv, ast.Name) and self.mutable_defaults and recv.id in self.mutable_defaults[-1]:
                    self.module_writes.add(self.qualfn() + '(' + recv.id + '=<mutable default>)')
                bn = base_name(recv)
                ba = base_name_attr(recv)
                if isinstance(recv, ast.Name) and recv.id in self.module_containers:
                    self.module_writes.add(recv.id)
                elif bn in self.module_containers and ba is None:
                    self.module_writes.add(bn)
                elif ba is not None:
                    name, attr = ba
                    if name == 'self':
                        self.self_stores.append((self.clsname() or '?', attr, self.fn[-1], 'call:' + f.attr))
                    elif name != 'cls':
                        self.param_stores.append((name, attr, self.qualfn(), 'call:' + f.attr))
            if isinstance(f, ast.Name) and f.id in ('setattr', 'delattr') and node.args:
                tgt = node.args[0]
                nm = tgt.id if isinstance(tgt, ast.Name) else (base_name(tgt) or '?')
                attr = '<dynamic>'
                if len(node.args) > 1 and isinstance(node.args[1], ast.Constant) and isinstance(node.args[1].value, str):
                    attr = node.args[1].value
                if nm == 'self':
                    self.self_stores.append((self.clsname() or '?', attr, self.fn[-1], f.id))
                else:
                    self.param_stores.append((nm, attr, self.qualfn(), f.id))
        self.generic_visit(node)

def class_kind(cname):
    if cname in CLASS_KIND:
        return CLASS_KIND[cname]
    last = cname.split('.')[-1]
    if last in CLASS_KIND:
        return CLASS_KIND[last]
    return SHARED

def ctor_only_methods(scans):
    """{class: set(methods)}: methods that run only as part of the construction of their object -- reached from the
    constructor through `self.m(..)` calls, and never called in any other way anywhere in the scanned modules"""
    calls = [c for sc in scans for c in sc.method_calls]
    res = {}
    classes = set(c[2] for c in calls if c[2])
    for cname in classes:
        helpers = set()
        changed = True
        while changed:
            changed = False
            for attr, on_self, ccls, cmeth in calls:
                if on_self and ccls == cname and (cmeth in CTORS or cmeth in helpers) and attr not in helpers and attr not in CTORS:
                    helpers.add(attr); changed = True
        # a helper must have no other call site
        ok = set()
        for h in helpers:
            good = True
            for attr, on_self, ccls, cmeth in calls:
                if attr != h:
                    continue
                if not (on_self and ccls == cname and (cmeth in CTORS or cmeth in helpers)):
                    good = False
            if good:
                ok.add(h)
        # dropping one helper may orphan another one's justification: iterate to a fixed point
        changed = True
        while changed:
            changed = False
            for h in list(ok):
                for attr, on_self, ccls, cmeth in calls:
                    if attr == h and not (cmeth in CTORS or cmeth in ok):
                        ok.discard(h); changed = True
                        break
        res[cname] = ok
    return res

def scan_repo(repo):
    """returns dict(module_state=[(module, name)], shared=[(class, attr)], perparse=[...], walker=[...], detail=[...])"""
    pk = os.path.join(repo, 'pylatexenc')
    module_state = set()
    stores = {SHARED: set(), PERPARSE: set(), WALKER: set(), VALUE: set()}
    detail = []
    scans = []
    for m in module_list(repo):
        src = open(os.path.join(pk, m), encoding='utf-8').read()
        tree = ast.parse(src, filename=m)
        sc = Scan(m)
        sc.visit(tree)
        scans.append(sc)
    helpers = ctor_only_methods(scans)
    for sc in scans:
        modname = sc.mod[:-3].replace('/', '.')
        for n in sorted(sc.module_writes):
            module_state.add((modname, n))
        for n in sc.cached_functions:
            module_state.add((modname, n + '<cache decorator>'))
        for cname, attr, meth, how in sc.self_stores:
            if meth in CTORS or meth in helpers.get(cname, ()):
                continue
            k = class_kind(cname)
            stores[k].add((cname, attr, meth))
            detail.append((k, modname, cname, attr, meth, how))
        for name, attr, fn, how in sc.param_stores:
            parts = fn.split('.')
            if parts[-1] in CTORS or any(p in CTOR_HELPER_FUNCS for p in parts):
                continue
            k = PARAM_KIND.get(name, SHARED)      # unknown name: fail closed
            if k == 'fresh':
                continue
            stores[k].add(('?' + name, attr, fn))
            detail.append((k, modname, '?' + name + '@' + fn, attr, fn, how))
    # call sites of the state-changing methods found above (other than the parse entry points themselves):
    # lets the consumer check that nothing on the parse path calls a database builder method
    callee = set(m for (c, a, m) in stores[SHARED] if m != 'parse' and not c.startswith('?'))
    sites = set()
    for sc in scans:
        for attr, on_self, ccls, cmeth in sc.method_calls:
            if attr in callee:
                sites.add((((ccls + '.') if ccls else '') + (cmeth or '<module>'), attr))
    return {'call_sites': sorted(sites),
            'module_state': sorted(module_state), 'shared': sorted(stores[SHARED]), 'perparse': sorted(stores[PERPARSE]),
            'walker': sorted(stores[WALKER]), 'value': sorted(stores[VALUE]), 'detail': detail,
            'ctor_helpers': sorted((c, m) for c, ms in helpers.items() for m in ms)}

def lean_str(s):
    return '[' + ', '.join(str(ord(c)) for c in s) + ']'

def generate(repo):
    r = scan_repo(repo)
    def emit(name, rows, typ):
        items = ['(' + ', '.join('S %s' % lean_str(x) for x in row) + ')' for row in rows]
        doc = '\n'.join('  -- ' + '  '.join(row) for row in rows)
        return '/-\n%s\n-/\ndef %s : List (%s) := [\n  %s]\n' % (doc or '  (none)', name, typ, ',\n  '.join(items))
    t = ['/- GENERATED by translate/stateinventory.py (ast scan of the anchored parser modules) — do not edit -/',
         'import Pylx.Basic', 'namespace Pylx.Gen.StateInventory', '',
         'def S (l : List Nat) : Str := l.map Char.ofNat', '',
         '/-- module-level mutable containers that are written to at run time (also: functions with a caching',
         '    decorator, mutated mutable default arguments): (module, name) -/',
         emit('moduleState', r['module_state'], 'Str × Str'),
         '/-- attribute stores outside construction on objects that outlive a parse: (class, attribute, method);',
         '    `?name` = store through a parameter / local of that name (unknown names are reported here: fail closed) -/',
         emit('sharedStores', r['shared'], 'Str × Str × Str'),
         '/-- every call site, in the scanned modules, of a state-changing method listed above (except `parse`):',
         '    (calling function, called method) -/',
         emit('storeMethodCallSites', r['call_sites'], 'Str × Str'),
         '/-- stores on the walker object (one walker per input string) -/',
         emit('walkerStores', r['walker'], 'Str × Str × Str'),
         '/-- for information: methods treated as part of construction (reached only from the constructor through',
         '    `self.m(..)`, no other call site in the scanned modules): (class, method) -/',
         emit('ctorHelpers', r['ctor_helpers'], 'Str × Str'),
         '/-- for information: number of stores on per-parse objects (token reader, collector, Info records, exceptions,',
         '    tokens) and on result values created by the storing call -/',
         'def perParseStoreCount : Nat := %d' % len(r['perparse']),
         'def valueStoreCount : Nat := %d' % len(r['value']),
         '', 'end Pylx.Gen.StateInventory', '']
    return {'StateInventory.lean': '\n'.join(t)}

if __name__ == '__main__':
    repo = sys.argv[1] if len(sys.argv) > 1 else '/repo'
    r = scan_repo(repo)
    for k in ('module_state', 'shared', 'walker', 'value', 'ctor_helpers'):
        print('==', k)
        for x in r[k]:
            print('   ', x)
    if '-v' in sys.argv:
        for d in r['detail']:
            print(d)
