# Translator: the default latex2text database -> lean/Pylx/Gen/TextDb.lean
#
# Per name (macros / environments / specials, in lookup-precedence order): the `discard` flag and the replacement
# in a closed-world form.  Everything that is not recognised becomes `.unknownCallable` / `.badFmt`, for which the
# model answers `crash`, so that the theorems depending on the table stop checking (fail closed).
#
# Recognition:
#   * strings: plain, or %-format strings whose directives are only `%s`, `%(key)s`, `%%` (anything else -> .badFmt);
#   * lambdas of _defaultspecs.py: by their `ast` (source located through co_firstlineno) compared with the
#     snippets in LAMBDAS below (the form found in the tree and the repaired forms);
#   * closures: `placeholder_node_formatter(text, block)` and `_mathxx_formatter(style)` by code-object identity
#     with a fresh instance + their closure cells / defaults;
#   * named functions (and every helper they call) by identity + a pinned hash of their `ast` (HASHES below;
#     `python translate/textdb.py --hashes [repo]` prints the current values).
import sys, os, ast, hashlib, inspect, re, textwrap

# ------------------------------------------------------------------ pinned function bodies (ast hashes)
HASHES = {
    # name: accepted sha1(ast.dump(FunctionDef))[:16]  (as found, and with the repairs of findings/F7..F9 applied)
    'fmt_equation_environment': {'4b4196e6aa61c2ba'},
    'fmt_input_macro': {'7b0813a2f528ef91'},
    'placeholder_node_formatter': {'50c598f32090b169'},
    '_do_fmt_placeholder_node': {'229246cb4bba9c3c'},
    'fmt_matrix_environment_node': {'9578004dcba6a894', '365ae77c52905220'},
    '_fmt_math_style_char': {'7552cfc40227e481'},
    'fmt_math_text_style': {'236068693889783b'},
    '_format_uebung': {'c63ad328578c6c94', '496c410701a54c3e'},
    '_format_maketitle': {'044dfc8ac4a61bb4'},
    '_latex_today': {'dfd88c29e0bdfef7'},
    '_mathxx_formatter': {'0b53726b31fcef76'},
    'make_accented_char': {'ee5ecf376eb1398b'},
}

LAMBDAS = {
    'title':  ["lambda n, l2tobj: setattr(l2tobj, '_doc_title', l2tobj.nodelist_to_text(n.nodeargd.argnlist[0:1]))"],
    'author': ["lambda n, l2tobj: setattr(l2tobj, '_doc_author', l2tobj.nodelist_to_text(n.nodeargd.argnlist[0:1]))"],
    'date':   ["lambda n, l2tobj: setattr(l2tobj, '_doc_date', l2tobj.nodelist_to_text(n.nodeargd.argnlist[0:1]))"],
    'maketitle': ["lambda n, l2tobj: _format_maketitle(getattr(l2tobj, '_doc_title', r'[NO \\title GIVEN]'), "
                  "getattr(l2tobj, '_doc_author', r'[NO \\author GIVEN]'), getattr(l2tobj, '_doc_date', _latex_today()))"],
    'item': ["lambda r, l2tobj: '\\n  '+(l2tobj.nodelist_to_text([r.nodeoptarg]) if r.nodeoptarg else '* ')"],
    # as found (indexes the argument list), and repaired (slices, guarded against a missing nodeargd)
    'href': ["lambda n, l2tobj: '{} <{}>'.format(l2tobj.nodelist_to_text([n.nodeargd.argnlist[1]]), "
             "l2tobj.nodelist_to_text([n.nodeargd.argnlist[0]]))",
             "lambda n, l2tobj: '{} <{}>'.format(l2tobj.nodelist_to_text(n.nodeargd.argnlist[1:2] if n.nodeargd else []), "
             "l2tobj.nodelist_to_text(n.nodeargd.argnlist[0:1] if n.nodeargd else []))"],
    'texorpdf': ["lambda node, l2tobj: l2tobj.nodelist_to_text(node.nodeargs[1:2])"],
    'accent': ["lambda x, l2tobj, c=mcombining: make_accented_char(x, c, l2tobj)"],
}

def _dump(node):
    return ast.dump(node, annotate_fields=True, include_attributes=False)

def _lambda_dump(src):
    t = ast.parse(src, mode='eval').body
    assert isinstance(t, ast.Lambda)
    return _dump(t)

def fn_hash(fn):
    """sha1 of the ast of a function definition (comments / layout do not matter, the docstring does)"""
    src = textwrap.dedent(inspect.getsource(fn))
    t = ast.parse(src).body[0]
    return hashlib.sha1(_dump(t).encode()).hexdigest()[:16]

# ------------------------------------------------------------------ Lean syntax helpers

def lean_str(s):
    return 'T [' + ', '.join(str(ord(c)) for c in s) + ']'

def chunks(l, n=40):
    return [l[i:i+n] for i in range(0, len(l), n)] or [[]]

def emit_list(name, typ, items):
    out = []
    cs = chunks(items)
    for i, c in enumerate(cs):
        out.append('def %s%d : List (%s) := [\n  %s]\n' % (name, i, typ, ',\n  '.join(c)))
    out.append('def %s : List (%s) := %s\n' % (name, typ, ' ++ '.join('%s%d' % (name, i) for i in range(len(cs)))))
    return '\n'.join(out)

# ------------------------------------------------------------------ %-format strings

_HAS_PERCENT_S = re.compile('(^|[^%])(%%)*%s')     # the test apply_simplify_repl() makes

def parse_fmt(s):
    """segments of a %-format string, or None if it uses anything but %s, %(key)s, %%"""
    segs = []
    lit = ''
    i = 0
    n = len(s)
    while i < n:
        c = s[i]
        if c != '%':
            lit += c; i += 1; continue
        if lit:
            segs.append(('lit', lit)); lit = ''
        if i + 1 >= n:
            return None
        d = s[i+1]
        if d == '%':
            segs.append(('pct',)); i += 2
        elif d == 's':
            segs.append(('pos',)); i += 2
        elif d == '(':
            j = s.find(')', i + 2)
            if j < 0 or j + 1 >= n or s[j+1] != 's':
                return None
            key = s[i+2:j]
            if '(' in key or '%' in key:
                return None
            segs.append(('key', key)); i = j + 2
        else:
            return None
    if lit:
        segs.append(('lit', lit))
    has_pos = any(x[0] == 'pos' for x in segs)
    if bool(_HAS_PERCENT_S.search(s)) != has_pos:
        return None
    return segs

def lean_seg(x):
    if x[0] == 'lit': return '.lit (%s)' % lean_str(x[1])
    if x[0] == 'pct': return '.pct'
    if x[0] == 'pos': return '.pos'
    return '.key (%s)' % lean_str(x[1])

def lean_strrepl(s):
    if '%' in s and len(s) != 1:
        segs = parse_fmt(s)
        if segs is None:
            return '.badFmt (%s)' % lean_str(s), 'badFmt'
        return '.fmt (%s) [%s]' % (lean_str(s), ', '.join(lean_seg(x) for x in segs)), 'fmt'
    return '.lit (%s)' % lean_str(s), 'lit'

# ------------------------------------------------------------------ callables

class Recog(object):
    def __init__(self, repo):
        self.repo = repo
        import pylatexenc
        if not os.path.abspath(pylatexenc.__file__).startswith(os.path.abspath(repo) + os.sep):
            raise RuntimeError('pylatexenc imported from %s, expected under %s' % (pylatexenc.__file__, repo))
        from pylatexenc import latex2text
        from pylatexenc.latex2text import _defaultspecs
        self.l2t = latex2text
        self.ds = _defaultspecs
        self.tree = ast.parse(open(_defaultspecs.__file__.replace('.pyc', '.py')).read())
        self.lams = {}
        for n in ast.walk(self.tree):
            if isinstance(n, ast.Lambda):
                self.lams.setdefault(n.lineno, []).append(n)
        self.lam_dumps = dict((k, [_lambda_dump(s) for s in v]) for k, v in LAMBDAS.items())
        self.pinned = {}
        self.notes = []

    def pin(self, name, fn):
        """is `fn` a plain function whose body hash is accepted?"""
        if name not in self.pinned:
            ok = False
            try:
                ok = inspect.isfunction(fn) and fn.__name__ == name and fn_hash(fn) in HASHES.get(name, ())
            except Exception:
                ok = False
            self.pinned[name] = ok
            if not ok:
                self.notes.append('function %s is not in its pinned form' % name)
        return self.pinned[name]

    def lambda_node(self, fn):
        c = fn.__code__
        if c.co_name != '<lambda>' or os.path.abspath(c.co_filename) != os.path.abspath(self.ds.__file__):
            return None
        cands = [l for l in self.lams.get(c.co_firstlineno, [])]
        # a lambda written after a line continuation is reported at the line of the `lambda` keyword
        if len(cands) != 1:
            return None
        return cands[0]

    def classify(self, kind, name, fn):
        """returns Lean term for the Repl"""
        l2t, ds = self.l2t, self.ds
        U = '.unknownCallable'
        if fn is l2t.fmt_equation_environment:
            return '.eqEnv' if self.pin('fmt_equation_environment', fn) and kind == 'environments' else U
        if fn is l2t.fmt_input_macro:
            return '.input' if self.pin('fmt_input_macro', fn) and kind == 'macros' else U
        if fn is l2t.fmt_matrix_environment_node:
            return '.matrix' if self.pin('fmt_matrix_environment_node', fn) and kind == 'environments' else U
        if fn is ds._format_uebung:
            return '.uebung' if self.pin('_format_uebung', fn) and kind == 'macros' else U
        if not inspect.isfunction(fn):
            return U
        # closures
        try:
            ref = l2t.placeholder_node_formatter('x')
            if fn.__code__ is ref.__code__:
                if not (self.pin('placeholder_node_formatter', l2t.placeholder_node_formatter)
                        and self.pin('_do_fmt_placeholder_node', l2t._do_fmt_placeholder_node)):
                    return U
                pht = fn.__defaults__[0]
                cells = dict(zip(fn.__code__.co_freevars, [c.cell_contents for c in (fn.__closure__ or ())]))
                block = cells.get('block')
                if isinstance(pht, str) and isinstance(block, bool) and fn.__globals__ is l2t.__dict__:
                    return '.placeholder (%s) %s' % (lean_str(pht), 'true' if block else 'false')
                return U
            ref = ds._mathxx_formatter('bold')
            if fn.__code__ is ref.__code__:
                if not (self.pin('_mathxx_formatter', ds._mathxx_formatter) and self.pin('fmt_math_text_style', l2t.fmt_math_text_style)
                        and self.pin('_fmt_math_style_char', l2t._fmt_math_style_char)
                        and ds.fmt_math_text_style is l2t.fmt_math_text_style):
                    return U
                style = fn.__defaults__[0]
                if not isinstance(style, str) or kind != 'macros':
                    return U
                up, lo = l2t._fmt_math_style_offsets.get(style, (65, 97))
                exc = l2t._fmt_math_style_exceptions.get(style, {})
                items = []
                for k, v in sorted(exc.items()):
                    if not (isinstance(k, int) and isinstance(v, str) and len(v) == 1):
                        return U
                    items.append('(%d, %d)' % (k, ord(v)))
                if not (isinstance(up, int) and isinstance(lo, int)):
                    return U
                return '.mathAlpha %d %d [%s]' % (up, lo, ', '.join(items))
        except Exception as e:
            self.notes.append('closure recognition failed for %s: %r' % (name, e))
            return U
        # lambdas of _defaultspecs.py
        lam = self.lambda_node(fn)
        if lam is None:
            return U
        d = _dump(lam)
        if fn.__closure__:
            return U
        def is_(k):
            return d in self.lam_dumps[k]
        if kind != 'macros':
            return U
        if is_('title'): return '.setDoc .title'
        if is_('author'): return '.setDoc .author'
        if is_('date'): return '.setDoc .date'
        if is_('maketitle'):
            if self.pin('_format_maketitle', ds._format_maketitle) and self.pin('_latex_today', ds._latex_today):
                return '.maketitle (%s) (%s)' % (lean_str('[NO \\title GIVEN]'), lean_str('[NO \\author GIVEN]'))
            return U
        if is_('item'): return '.item'
        if is_('href'): return '.href'
        if is_('texorpdf'): return '.texorpdf'
        if is_('accent'):
            comb = (fn.__defaults__ or (None,))[0]
            if isinstance(comb, str) and len(comb) == 1 and self.pin('make_accented_char', ds.make_accented_char):
                return '.accent %d' % ord(comb)
            return U
        # lambda <args>: "<constant>"
        if isinstance(lam.body, ast.Constant) and isinstance(lam.body.value, str) and not fn.__defaults__:
            return '.const (%s)' % lean_str(lam.body.value)
        # lambda n, l2tobj: FMT.format(l2tobj.node_arg_to_text(n, K)[.upper()])
        m = self.match_sectioning(lam)
        if m is not None:
            pre, post, k, upper = m
            return '.sectioning (%s) (%s) %d %s' % (lean_str(pre), lean_str(post), k, 'true' if upper else 'false')
        return U

    def match_sectioning(self, lam):
        a = lam.args
        if [x.arg for x in a.args] != ['n', 'l2tobj'] or a.defaults or a.vararg or a.kwarg or a.kwonlyargs or a.posonlyargs:
            return None
        b = lam.body
        if not (isinstance(b, ast.Call) and isinstance(b.func, ast.Attribute) and b.func.attr == 'format'
                and isinstance(b.func.value, ast.Constant) and isinstance(b.func.value.value, str)
                and len(b.args) == 1 and not b.keywords):
            return None
        fmt = b.func.value.value
        if fmt.count('{}') != 1 or fmt.replace('{}', '').count('{') or fmt.replace('{}', '').count('}'):
            return None
        x = b.args[0]
        upper = False
        if isinstance(x, ast.Call) and isinstance(x.func, ast.Attribute) and x.func.attr == 'upper' and not x.args and not x.keywords:
            upper = True
            x = x.func.value
        if not (isinstance(x, ast.Call) and len(x.args) == 2 and not x.keywords and isinstance(x.args[1], ast.Constant)
                and isinstance(x.args[1].value, int) and not isinstance(x.args[1].value, bool) and x.args[1].value >= 0):
            return None
        k = x.args[1].value
        if _dump(x) != _dump(ast.parse('l2tobj.node_arg_to_text(n, %d)' % k, mode='eval').body):
            return None
        pre, post = fmt.split('{}')
        return pre, post, k, upper

# ------------------------------------------------------------------ main

def walker_canonical(repo):
    """do all default walker specifications spell their arguments `{`, `[`, `*` (what the legacy
    nodeoptarg/nodeargs view tests for) exactly where the introspected kinds say m / o / s ?"""
    here = os.path.dirname(os.path.abspath(__file__))
    sys.path.insert(0, os.path.join(os.path.dirname(here), 'harness'))
    import ctxdesc
    from pylatexenc.latexnodes import ParsedArguments
    db = ctxdesc.make_db('default')
    def canon(argsp):
        if argsp[0] == 'S':
            out = ''
            for kind, delta in argsp[1]:
                out += {'m': '{', 'o1': '[', 'o0': '[', 's': '*', 'v': 'v'}.get(kind, kind if kind[0] != 'V' else 'v' + kind[1:])
            return out
        if argsp[0] == 'LV': return '{'
        if argsp[0] == 'LE': return '[{' if argsp[2] else '{'
        return None
    ok = True
    specs = []
    for cat in db.category_list:
        for k in ('macros', 'environments', 'specials'):
            specs.extend(db.d[cat][k].values())
    specs.extend([db.unknown_macro_spec, db.unknown_environment_spec])
    for sp in specs:
        if sp is None:
            continue
        c = canon(ctxdesc.introspect_argsp(sp))
        real = ParsedArguments(arguments_spec_list=sp.arguments_spec_list).argspec
        if c is None or c != real:
            ok = False
        n_pad = 0 if sp.arguments_spec_list is None else len(sp.arguments_spec_list)
        if c is not None and n_pad != len(ctxdesc.introspect_argsp(sp)[1] if ctxdesc.introspect_argsp(sp)[0] == 'S' else c):
            ok = False
    return ok

def generate(repo):
    if repo not in sys.path:
        sys.path.insert(0, repo)
    R = Recog(repo)
    l2t = R.l2t
    db = l2t.get_default_latex_context_db()
    today = R.ds._latex_today()
    stats = {}
    def repl_of(kind, name, spec):
        r = spec.simplify_repl
        if r is None:
            t, k = '.none', 'none'
        elif isinstance(r, str):
            if kind == 'macros' and name == 'today' and r == today and R.pin('_latex_today', R.ds._latex_today):
                t, k = '.today', 'today'
            else:
                t, k = lean_strrepl(r)
        elif callable(r):
            t = R.classify(kind, name, r)
            k = t.split(' ')[0]
        else:
            t, k = '.unknownCallable', '.unknownCallable'
        stats[k] = stats.get(k, 0) + 1
        return t
    def discard_of(spec):
        d = getattr(spec, 'discard', None)
        return d if isinstance(d, bool) else None
    out = {'macros': [], 'environments': [], 'specials': []}
    getter = {'macros': db.get_macro_spec, 'environments': db.get_environment_spec, 'specials': db.get_specials_spec}
    seen = {'macros': set(), 'environments': set(), 'specials': set()}
    for cat in db.category_list:
        for kind in ('macros', 'environments', 'specials'):
            for name in db.d[cat][kind].keys():
                if name in seen[kind]:
                    continue
                seen[kind].add(name)
                spec = getter[kind](name)          # what a lookup really returns
                t = repl_of(kind, name, spec)
                if kind == 'specials':
                    # SpecialsTextSpec has no `discard` attribute: reading it raises AttributeError
                    has_discard = hasattr(spec, 'discard')
                    out[kind].append('(%s, ⟨%s, %s, %s⟩)' % (lean_str(name), 'true' if has_discard else 'false',
                                                               'true' if (has_discard and spec.discard) else 'false', t))
                else:
                    d = discard_of(spec)
                    if d is None:
                        t = '.unknownCallable'
                        d = False
                    out[kind].append('(%s, ⟨true, %s, %s⟩)' % (lean_str(name), 'true' if d else 'false', t))
    unk_ok = db.unknown_macro_spec is None and db.unknown_environment_spec is None and db.unknown_specials_spec is None
    # names of recovery nodes that carry no `spec` must not be rendered through a %-format string
    for bad in ('begin', 'end', '\\(', '\\)', '\\[', '\\]'):
        sp = db.get_macro_spec(bad)
        if sp is not None and isinstance(sp.simplify_repl, str) and '%' in sp.simplify_repl:
            unk_ok = False
    canonical = walker_canonical(repo)
    t = ['/- GENERATED by translate/textdb.py from pylatexenc/latex2text/_defaultspecs.py — do not edit',
         '   recognised: ' + ', '.join('%s=%d' % kv for kv in sorted(stats.items())),
         ] + ['   note: ' + n for n in R.notes] + ['-/',
         'import Pylx.L2T', 'namespace Pylx.Gen', 'open Pylx.L2T', '',
         'def T (l : List Nat) : Str := l.map Char.ofNat', '',
         emit_list('textMacros', 'Str × TSpec', out['macros']),
         emit_list('textEnvs', 'Str × TSpec', out['environments']),
         emit_list('textSpecials', 'Str × TSpec', out['specials']),
         '/-- the text database has no fallback specification for unknown macros, environments or specials, and no %%-format entry for the names of recovery nodes that carry no spec -/',
         'def textDbShapeOk : Bool := %s' % ('true' if unk_ok else 'false'), '',
         '/-- every default walker specification spells its arguments `{`, `[`, `*` where the introspected kinds are m / o / s,',
         '    and `len(spec.arguments_spec_list)` is the number of introspected arguments -/',
         'def walkerArgspecCanonical : Bool := %s' % ('true' if canonical else 'false'), '',
         'def defaultTextDb : TextDb :=\n  { macros := textMacros, envs := textEnvs, specials := textSpecials,\n'
         '    shapeOk := textDbShapeOk && walkerArgspecCanonical }',
         '', 'end Pylx.Gen', '']
    return {'TextDb.lean': '\n'.join(t)}

if __name__ == '__main__':
    if len(sys.argv) > 1 and sys.argv[1] == '--hashes':
        repo = sys.argv[2] if len(sys.argv) > 2 else '/repo'
        sys.path.insert(0, repo)
        from pylatexenc import latex2text
        from pylatexenc.latex2text import _defaultspecs
        for name in sorted(HASHES):
            fn = getattr(latex2text, name, None) or getattr(_defaultspecs, name)
            print("    %r: %r," % (name, fn_hash(fn)))
    else:
        repo = sys.argv[1] if len(sys.argv) > 1 else '/repo'
        print(generate(repo)['TextDb.lean'][:3000])
