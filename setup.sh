#!/bin/bash
# regenerate tables from /repo and build model, proofs and driver (offline)
set -e
cd "$(dirname "$0")"
/venv/bin/python - <<'PY'
import sys, os
sys.path.insert(0, 'harness')
import common
print(common.regenerate())
PY
cd lean && lake build
