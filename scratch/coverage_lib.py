# helper shared by coverage.py / why.py: constructs present in a derivation
def feats(doc):
    """constructs of a derivation that matter for the fragment (python-side approximation, for the breakdown only)"""
    f = set()
    def items(l):
        for i, it in enumerate(l):
            k = it[0]
            if k == 'P': f.add('P')
            elif k == 'G': items(it[1])
            elif k == 'M':
                if not it[1].isalpha(): f.add('M-symbol')
                args(it[3])
            elif k == 'E': f.add('E'); args(it[2]); items(it[3])
            elif k == 'F': items(it[2])
            elif k == 'S':
                if it[2]: f.add('S-args'); args(it[2])
            elif k == 'V': f.add('V')
            elif k == 'VE':
                f.add('VE')
                if it[2] is not None: items(it[2])
    def args(al):
        for a in al:
            k = a[0]
            if k == 'tok': f.add('tok')
            elif k == 'marker': f.add('marker')
            elif k == 'del': f.add('del'); items(a[3])
            elif k == 'verb': f.add('verb')
            elif k in ('br', 'grp'): items(a[1])
    items(doc)
    return f

