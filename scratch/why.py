# print a few derivations outside Core whose listed constructs are exactly the given set
import sys, os, random, importlib
HERE = os.path.dirname(os.path.abspath(__file__))
sys.path.insert(0, os.path.join(HERE, '..', 'harness'))
sys.path.insert(0, HERE)
import common, docwire, docgen
mod = importlib.import_module('props.c02')
import coverage_lib as cl
want = set(sys.argv[1].split(',')) if len(sys.argv) > 1 and sys.argv[1] else set()
rng = random.Random(7)
cases = []
for c in mod.cases('thorough', rng):
    if c.get('k') == 'doc':
        cases.append(c)
        if len(cases) >= 12000: break
cases = cases[5000:]
lines = [docwire.to_line(c['ctx'], mod._doc(c['doc']), op='DOCINFO') for c in cases]
out = common.run_driver(lines)
k = 0
for c, o in zip(cases, out):
    if 'core=T' in o: continue
    if cl.feats(mod._doc(c['doc'])) == want:
        print(repr(docgen.unparse(mod._doc(c['doc']))), '   ', c['cg'] if isinstance(c['cg'], str) else 'random')
        print('     ', mod._doc(c['doc']))
        k += 1
        if k >= int(sys.argv[2]) if len(sys.argv) > 2 else 12: break
