# share of generated derivations (the C02 DOC cases: default context, context A, random contexts, plus the small
# T/G/C batch) that lie inside the proved fragment Doc.Core, as evaluated by the driver (DOCINFO -> wf=, core=)
# usage: /venv/bin/python scratch/coverage.py [n] [seed]
import sys, os, random, importlib
from collections import Counter
HERE = os.path.dirname(os.path.abspath(__file__))
sys.path.insert(0, os.path.join(HERE, '..', 'harness'))
import common, docwire, docgen
mod = importlib.import_module('props.c02')

N = int(sys.argv[1]) if len(sys.argv) > 1 else 20000
SEED = int(sys.argv[2]) if len(sys.argv) > 2 else 7
rng = random.Random(SEED)

def feats(doc):
    """constructs of a derivation that matter for the fragment (python-side approximation, for the breakdown only)"""
    f = set()
    def items(l):
        for i, it in enumerate(l):
            k = it[0]
            if k == 'P': f.add('P')
            elif k == 'G': items(it[1])
            elif k == 'M':
                if not it[1].isalpha(): f.add('M-symbol')
                args(it[3])
            elif k == 'E': f.add('E'); args(it[2]); items(it[3])
            elif k == 'F': items(it[2])
            elif k == 'S':
                if it[2]: f.add('S-args'); args(it[2])
            elif k == 'V': f.add('V')
            elif k == 'VE':
                f.add('VE')
                if it[2] is not None: items(it[2])
    def args(al):
        for a in al:
            k = a[0]
            if k == 'tok': f.add('tok')
            elif k == 'marker': f.add('marker')
            elif k == 'del': f.add('del'); items(a[3])
            elif k == 'verb': f.add('verb')
            elif k in ('br', 'grp'): items(a[1])
    items(doc)
    return f

def kind_of(c):
    return c['cg'] if isinstance(c['cg'], str) else 'random'

def main():
    cases = []
    for c in mod.cases('thorough', rng):
        if c.get('k') == 'doc':
            cases.append(c)
            if len(cases) >= N + 5000:
                break
    # the first 5000 doc cases of the thorough tier are the small T/G/C batch; report them separately
    small, main_ = cases[:5000], cases[5000:]
    for name, cs in (('T/G/C batch', small), ('grammar documents', main_)):
        lines = [docwire.to_line(c['ctx'], mod._doc(c['doc']), op='DOCINFO') for c in cs]
        out = common.run_driver(lines)
        tot = Counter(); core = Counter(); wf = Counter()
        blocked = Counter()
        for c, o in zip(cs, out):
            k = kind_of(c)
            tot[k] += 1; tot['all'] += 1
            if 'wf=T' in o:
                wf[k] += 1; wf['all'] += 1
            if 'core=T' in o:
                core[k] += 1; core['all'] += 1
            else:
                fs = feats(mod._doc(c['doc']))
                blocked[','.join(sorted(fs)) or '(none of the listed constructs)'] += 1
        print('== %s: %d derivations' % (name, len(cs)))
        for k in sorted(tot):
            print('   %-8s n=%6d  wf=%6.2f%%  core=%6.2f%%' % (k, tot[k], 100.0 * wf[k] / tot[k], 100.0 * core[k] / tot[k]))
        print('   derivations outside Core by constructs present (top 15):')
        for k, v in blocked.most_common(15):
            print('      %6d  %s' % (v, k))

main()
